(* C08d -- SCOPING on the unified reference semantics (Spec/CoreAll.v), and one headline statement on
   the interpreter.  Port and extension of Properties/C08c.v (core fragment) to functions and the
   START family.  Proofs in Proofs/CoreAllScope.v, example in Proofs/CoreAllScopeExample.v.
     is_scope s       s is an IF chain, a REPEAT, a WHILE, a RUN or a STARTCODE
     kext vs vs'      the names of vs' are those of vs, in the same order, then possibly new ones
     top_vars p       the names assigned by the VAR lines at the TOP LEVEL of the list p
     no_top_merge p   no START / STARTENV at the top level of p (anything inside blocks / functions)
   The block discipline: a body runs on a copy of the enclosing store (plus counter / parameters);
   on exit the enclosing store becomes  copy_back outer inner. *)
From Coq Require Import String NArith ZArith List Bool.
From DS Require Import Base PyStr Values Expr TabParse Tables Constants Interp ImportGraph ScopeProofs.
From DS Require Import CoreLang CoreFunc CoreAll CoreAllBase CoreAllRefine CoreAllErrRefine CoreAllKeys CoreAllConverse.
From DS Require Import CoreAllExample CoreAllErrExample CoreAllScope CoreAllScopeExample.
Import ListNotations.
Arguments IOk {A}. Arguments IErr {A}.
Arguments e_sys : clear implicits. Arguments e_user : clear implicits. Arguments e_temp : clear implicits.
Arguments e_funcs : clear implicits. Arguments mkEnv : clear implicits.

Theorem C08d_is_scope_meaning : forall s,
  is_scope s = match s with
               | UIf _ _ | URepeat _ _ _ | UWhile _ _ _ | URun _ _ | UStart KCode _ => true
               | _ => false
               end.
Proof. exact is_scope_meaning. Qed.
Print Assumptions C08d_is_scope_meaning.

(* EVERY BLOCK STATEMENT, EVERY RUN AND EVERY STARTCODE IS A SCOPE: whatever happens inside (nested
   blocks, counters, parameters, BREAKLOOP, RETURN, imports), the variables after it are those
   before it, in the same order; and the function table is unchanged *)
Theorem C08d_scope_statement :
  forall (fo : FloatOps) (sys : store fo) prog inc sup d pile cf n F f vs s sg F' f' vs' out ev,
  exec fo sys prog inc sup d pile cf n F f vs s sg F' f' vs' out ev -> is_scope s = true ->
  map fst vs' = map fst vs /\ F' = F.
Proof. exact scope_statement. Qed.
Print Assumptions C08d_scope_statement.

(* a variable is visible after the scope iff it existed before: a name created inside never
   survives (counters, parameters, variables of the body), a name that existed is never lost *)
Theorem C08d_visible_after_iff_before :
  forall (fo : FloatOps) (sys : store fo) prog inc sup d pile cf n F f vs s sg F' f' vs' out ev x,
  exec fo sys prog inc sup d pile cf n F f vs s sg F' f' vs' out ev -> is_scope s = true ->
  has_key x vs' = has_key x vs.
Proof. exact not_created_in_scope. Qed.
Print Assumptions C08d_visible_after_iff_before.

(* the values on leaving a block: an outer variable takes the value the block left; nothing else exists *)
Theorem C08d_copy_back_values : forall (fo : FloatOps) (outer inner : store fo) x,
  lookup x (copy_back fo outer inner) = if has_key x outer then lookup x inner else None.
Proof. exact copy_back_values_u. Qed.
Print Assumptions C08d_copy_back_values.

(* RUN: the caller's variables afterwards are the caller's names with the values the body left *)
Theorem C08d_run_values :
  forall (fo : FloatOps) (sys : store fo) prog inc sup d pile cf n F f vs name args sg F' f' vs' out ev,
  exec fo sys prog inc sup d pile cf n F f vs (URun name args) sg F' f' vs' out ev ->
  exists vals df sgb F1 f1 vs1 d',
    d = S d' /\ lookup name F = Some df /\
    exec_list fo sys prog inc sup d' (pile ++ [mkSF cf (run_head name args) n true]) (d_file df) (d_line df + 1) F None
      (bind_params fo (d_params df) vals vs) (d_body df) sgb F1 f1 vs1 out ev /\
    forall x, lookup x vs' = if has_key x vs then lookup x vs1 else None.
Proof. exact run_values. Qed.
Print Assumptions C08d_run_values.

(* START / STARTENV ONLY ADD NAMES: the importer's store becomes the merge of the file's final store;
   no name is lost or moved; for stores without duplicates the result IS the file's final store
   vs1 (which started as a copy of the importer's): the added names are those the file created *)
Theorem C08d_start_only_adds :
  forall (fo : FloatOps) (sys : store fo) prog inc sup d pile cf n F f vs k name sg F' f' vs' out ev,
  exec fo sys prog inc sup d pile cf n F f vs (UStart k name) sg F' f' vs' out ev -> k <> KCode ->
  exists d' stmts sg1 F1 f1 vs1 out1 ev1,
    d = S d' /\ lookup name prog = Some stmts /\
    exec_list fo sys prog inc sup d' (pile ++ [mkSF cf (start_head k name) n true]) name 1 F None vs stmts
              sg1 F1 f1 vs1 out1 ev1 /\
    vs' = overlay fo vs1 vs /\ F' = overlay_defs F1 F /\
    kext vs vs' /\ kext F F' /\
    (nodup_keys vs -> nodup_keys F -> vs' = vs1 /\ F' = F1 /\ kext vs vs1).
Proof. exact start_adds. Qed.
Print Assumptions C08d_start_only_adds.

(* BLOCKS SEE THE VARIABLES OF THE ENCLOSING CODE: an iteration's store is the loop's plus the
   counter; a function body's store is the caller's plus the parameters (an IF arm starts from the
   enclosing store itself: rules A_Take / A_Else) *)
Theorem C08d_loop_body_sees : forall (fo : FloatOps) c k (vs : store fo) x,
  c <> Some x -> lookup x (with_counter fo c k vs) = lookup x vs.
Proof. exact block_sees_loop. Qed.
Print Assumptions C08d_loop_body_sees.

Theorem C08d_function_body_sees : forall (fo : FloatOps) ps vals (vs : store fo) x,
  ~ In x ps -> lookup x (bind_params fo ps vals vs) = lookup x vs.
Proof. exact block_sees_call. Qed.
Print Assumptions C08d_function_body_sees.

(* the variables after a statement list with no top-level START / STARTENV: those before it and
   those assigned by ITS OWN top-level VAR lines -- nothing from inside any scope *)
Theorem C08d_top_names :
  forall (fo : FloatOps) (sys : store fo) prog inc sup d pile cf n F f vs p sg F' f' vs' out ev,
  exec_list fo sys prog inc sup d pile cf n F f vs p sg F' f' vs' out ev -> no_top_merge p = true ->
  forall y, In y (map fst vs') -> In y (map fst vs) \/ In y (top_vars p).
Proof. exact top_names. Qed.
Print Assumptions C08d_top_names.

(* ================================================================== on the interpreter *)
(* FROM THE INTERPRETER'S ANSWER ALONE (converse refinement; tame: every expression inside the modelled
   evaluator): after a successful compilation of an entry file without top-level START / STARTENV,
   every user variable of the final environment is assigned by a VAR line at the TOP LEVEL of the
   entry file.  Nothing created in an IF arm, a loop body, a function body or a STARTCODE file, no
   counter, no parameter leaks. *)
Theorem C08d_final_user_variables :
  forall (fo : FloatOps) dir prog fs, prog_ok dir prog fs -> prog_closed dir prog fs ->
  forall o entry stmts g c,
  tame_prog fo prog -> (1 <= stack_limit o)%Z -> lookup entry prog = Some stmts -> no_top_merge stmts = true ->
  compile_items fo o fs (Some (file_of dir entry)) (uitems_of stmts) = (g, IOk c) ->
  forall x, In x (map fst (e_user fo (final_env fo c))) -> In x (top_vars stmts).
Proof. exact final_user_variables. Qed.
Print Assumptions C08d_final_user_variables.

(* the refinement direction (no tameness): a derivation within the limit is what the interpreter
   computes; its final user variables are the derivation's store *)
Theorem C08d_final_user_variables_of_run :
  forall (fo : FloatOps) dir prog fs, prog_ok dir prog fs ->
  forall o entry d sg F' f' vs' out ev,
  uruns fo prog (include_comments o) (supress_command_not_exist o) entry d sg F' f' vs' out ev ->
  (Z.of_nat d < stack_limit o)%Z ->
  exists stmts g c, lookup entry prog = Some stmts /\
    compile_items fo o fs (Some (file_of dir entry)) (uitems_of stmts) = (g, IOk c) /\
    e_user fo (final_env fo c) = vs' /\
    (no_top_merge stmts = true -> forall x, In x (map fst (e_user fo (final_env fo c))) -> In x (top_vars stmts)).
Proof. exact final_user_variables_of_run. Qed.
Print Assumptions C08d_final_user_variables_of_run.

(* ================================================================== non-vacuity *)
(* VAR a 1 / IF a==1 (VAR b 2 ; VAR a 5) / FUNC g p (VAR q p) / RUN g 3 / REPEAT i,2 (VAR r i) /
   STARTCODE lib [VAR z 9 ; VAR a 7] / $STRING a *)
Theorem C08d_example : forall (fo : FloatOps) inc sup,
  prog_ok ex_dir sc_prog sc_fs /\ top_vars sc_main = [S_ "a"] /\ no_top_merge sc_main = true /\
  uruns fo sc_prog inc sup n_main 1 Normal sc_F (Some true) [(S_ "a", VInt 7)] [LCode (S_ "STRING 7")] [].
Proof. exact sc_all. Qed.
Print Assumptions C08d_example.

Theorem C08d_example_by_theorem : forall (fo : FloatOps) inc sup, exists g c,
  compile_items fo (ex_opts inc sup) sc_fs (Some (file_of ex_dir n_main)) (uitems_of sc_main) = (g, IOk c) /\
  e_user fo (final_env fo c) = [(S_ "a", VInt 7)] /\
  (forall x, In x (map fst (e_user fo (final_env fo c))) -> In x (top_vars sc_main)).
Proof. exact sc_by_theorem. Qed.
Print Assumptions C08d_example_by_theorem.

Theorem C08d_example_computed : forall fo : FloatOps,
  match compile_items fo (ex_opts false false) sc_fs (Some (file_of ex_dir n_main)) (uitems_of sc_main) with
  | (_, IOk c) => map o_text (out fo c) = [S_ "STRING 7"] /\ e_user fo (final_env fo c) = [(S_ "a", VInt 7)]
  | _ => False
  end.
Proof. exact sc_interpreter. Qed.
Print Assumptions C08d_example_computed.
