(* C11c -- "`$CMD expr` gives the line `CMD v` where v is the printed value of expr" and
   "`$ENTER n`".  Statements only; proofs in Proofs/DollarForm.v (the pipeline) and
   Proofs/DollarArith.v (palette classes, lines of a stack), witnesses in Proofs/CounterExamples.v.
   (The quoted-region half of C11 is in Properties/C03b.v.)

   STATEMENT NOTES.
   - The text that is tokenized is [norm sc expr] (Proofs/GroupProofs.v): [strip expr] when the
     class strips its arguments (the unknown-word fall-back, ENTER, ...), [expr] ITSELF for
     STRING / STRINGLN (strip_args = False).
   - The command word written `$name` is emitted as [upper name]; the state is unchanged except
     line_2, which ends on the current line.
   - `$ENTER n`: the emitted text is the constant ENTER (not the spelled word); n < 0 gives no
     line and no error; TRUE / FALSE are not integers here (InvalidArguments);
     n > count_limit (100000) is outside the modelled fragment (IUnmod). *)
From Coq Require Import String NArith ZArith List Bool.
From DS Require Import Base PyStr Values Expr TabParse Tables Constants Interp.
From DS Require Import PipelineProofs IgnoreProofs GroupProofs DollarForm DollarArith.
From DS Require Import Spelling ExprLang ChainLoopExamples CounterExamples.
Import ListNotations.

Arguments IOk {A}. Arguments IErr {A}. Arguments ICrash {A}. Arguments IUnmod {A}.
Arguments s_g {fo}. Arguments s_env {fo}. Arguments s_line2 {fo}. Arguments mkSt {fo}.

(* dollar_form: any PLAIN class (plain_class of Proofs/PipelineProofs.v) that takes arguments *)
Theorem C11c_dollar_form :
  forall (fo : FloatOps) (child : runner fo) (cx : ctx) (cur : preline) (cname : str) (tg : tag)
         (sc : simple_cls) (name : str) (n : Z) (expr : str) (s : st fo) (v : value fo) (t : str),
  plain_class sc -> s_arg_req sc <> NotAllowed -> expr <> [] ->
  tokenize fo (all_vars fo (s_env s)) (norm sc expr) = Ok v ->
  py_str fo v = Some t ->
  simple_compile fo child cx cur cname tg sc (dollar :: name) n (Some expr) None s =
  (mkSt (s_g s) (s_env s) (Some cur),
   IOk (mkCret [mkO tg (upper name ++ [32%N] ++ t)] SNormal)).
Proof. exact dollar_form. Qed.
Print Assumptions C11c_dollar_form.

(* the expression does not evaluate: the tokenizer's error, located on the line *)
Theorem C11c_dollar_form_error :
  forall (fo : FloatOps) (child : runner fo) (cx : ctx) (cur : preline) (cname : str) (tg : tag)
         (sc : simple_cls) (name : str) (n : Z) (expr : str) (s : st fo) (e : errcls),
  plain_class sc -> expr <> [] ->
  tokenize fo (all_vars fo (s_env s)) (norm sc expr) = Err e ->
  simple_compile fo child cx cur cname tg sc (dollar :: name) n (Some expr) None s =
  (mkSt (s_g s) (s_env s) (Some cur), IErr e (Some (here cx cur (Some cur)))).
Proof. exact dollar_form_error. Qed.
Print Assumptions C11c_dollar_form_error.

(* the unknown-command fall-back (exec_line runs it after the "may not exist" warning) *)
Theorem C11c_dollar_form_unknown :
  forall (fo : FloatOps) (child : runner fo) (cx : ctx) (cur : preline) (name : str) (n : Z)
         (expr : str) (s : st fo) (v : value fo) (t : str),
  expr <> [] ->
  tokenize fo (all_vars fo (s_env s)) (strip expr) = Ok v -> py_str fo v = Some t ->
  simple_compile fo child cx cur [] ByUnknown generic_simple (dollar :: name) n (Some expr) None s =
  (mkSt (s_g s) (s_env s) (Some cur),
   IOk (mkCret [mkO ByUnknown (upper name ++ [32%N] ++ t)] SNormal)).
Proof. exact dollar_form_unknown. Qed.
Print Assumptions C11c_dollar_form_unknown.

(* ------------------------------------------------------------------ $ENTER
   enter_class sc: arg_type int, base-class validator / formatter / plural check, run kind Enter,
   arguments allowed; enter_text sc expr = strip expr iff the class strips *)
Theorem C11c_dollar_enter_cases :
  forall (fo : FloatOps) (child : runner fo) (cx : ctx) (cur : preline) (cname : str) (tg : tag)
         (sc : simple_cls) (name : str) (n : Z) (expr : str) (s : st fo) (v : value fo),
  enter_class sc -> expr <> [] ->
  tokenize fo (all_vars fo (s_env s)) (enter_text sc expr) = Ok v ->
  simple_compile fo child cx cur cname tg sc (dollar :: name) n (Some expr) None s =
  (mkSt (s_g s) (s_env s) (Some cur),
   match v with
   | VInt z => if (z <=? count_limit)%Z
               then IOk (mkCret (map (mkO tg) (repeat s_ENTER (Z.to_nat z))) SNormal)
               else IUnmod
   | _ => IErr EInvalidArguments (Some (here cx cur (Some cur)))
   end).
Proof. exact dollar_enter_gen. Qed.
Print Assumptions C11c_dollar_enter_cases.

Theorem C11c_dollar_enter :
  forall (fo : FloatOps) (child : runner fo) (cx : ctx) (cur : preline) (cname : str) (tg : tag)
         (sc : simple_cls) (name : str) (n : Z) (expr : str) (s : st fo) (z : Z),
  enter_class sc -> expr <> [] ->
  tokenize fo (all_vars fo (s_env s)) (enter_text sc expr) = Ok (VInt z) ->
  (0 <= z <= count_limit)%Z ->
  simple_compile fo child cx cur cname tg sc (dollar :: name) n (Some expr) None s =
  (mkSt (s_g s) (s_env s) (Some cur),
   IOk (mkCret (repeat (mkO tg s_ENTER) (Z.to_nat z)) SNormal)).
Proof. exact dollar_enter. Qed.
Print Assumptions C11c_dollar_enter.

Theorem C11c_dollar_enter_negative :
  forall (fo : FloatOps) (child : runner fo) (cx : ctx) (cur : preline) (cname : str) (tg : tag)
         (sc : simple_cls) (name : str) (n : Z) (expr : str) (s : st fo) (z : Z),
  enter_class sc -> expr <> [] ->
  tokenize fo (all_vars fo (s_env s)) (enter_text sc expr) = Ok (VInt z) ->
  (z < 0)%Z ->
  simple_compile fo child cx cur cname tg sc (dollar :: name) n (Some expr) None s =
  (mkSt (s_g s) (s_env s) (Some cur), IOk (mkCret [] SNormal)).
Proof. exact dollar_enter_negative. Qed.
Print Assumptions C11c_dollar_enter_negative.

Theorem C11c_dollar_enter_not_int :
  forall (fo : FloatOps) (child : runner fo) (cx : ctx) (cur : preline) (cname : str) (tg : tag)
         (sc : simple_cls) (name : str) (n : Z) (expr : str) (s : st fo) (v : value fo),
  enter_class sc -> expr <> [] ->
  tokenize fo (all_vars fo (s_env s)) (enter_text sc expr) = Ok v ->
  (forall z : Z, v <> VInt z) ->
  simple_compile fo child cx cur cname tg sc (dollar :: name) n (Some expr) None s =
  (mkSt (s_g s) (s_env s) (Some cur), IErr EInvalidArguments (Some (here cx cur (Some cur)))).
Proof. exact dollar_enter_not_int. Qed.
Print Assumptions C11c_dollar_enter_not_int.

(* ------------------------------------------------------------------ the generated palette *)
(* the word $ENTER is dispatched to a class with these attributes (and strip_args) *)
Theorem C11c_palette_dollar_enter :
  match find_command palette d_ENTER None with
  | Some (_, Simple sc) => is_enterb sc
  | _ => false
  end = true.
Proof. exact palette_dollar_enter. Qed.
Print Assumptions C11c_palette_dollar_enter.

Theorem C11c_is_enterb_sound : forall sc, is_enterb sc = true -> enter_class sc /\ s_strip_args sc = true.
Proof. exact is_enterb_sound. Qed.
Print Assumptions C11c_is_enterb_sound.

(* the line "$ENTER expr" of a stack *)
Theorem C11c_dollar_enter_line :
  forall (fo : FloatOps) (child : runner fo) (cx : ctx) (c : str) (n : Z) (s : st fo) (expr : str) (v : value fo),
  split_ws1 c = [d_ENTER; expr] -> expr <> [] ->
  tokenize fo (all_vars fo (s_env s)) (strip expr) = Ok v ->
  exists cname : str,
    exec_line fo child cx c n None s =
    (mkSt (s_g s) (s_env s) (Some (c, n)),
     match v with
     | VInt z => if (z <=? count_limit)%Z
                 then IOk (mkCret (map (mkO (ByCommand cname)) (repeat s_ENTER (Z.to_nat z))) SNormal)
                 else IUnmod
     | _ => IErr EInvalidArguments (Some (here cx (c, n) (Some (c, n))))
     end).
Proof. exact dollar_enter_line. Qed.
Print Assumptions C11c_dollar_enter_line.

(* dollar_string_arith: the line "$STRING e", e the printed form (any spacing, the printer's
   parentheses) of an integer expression (literals, + - *, parentheses), in an environment whose
   names are identifiers: the single line "STRING " ++ decimal (zeval e) *)
Theorem C11c_dollar_string_arith :
  forall (fo : FloatOps) (child : runner fo) (cx : ctx) (c : str) (n : Z) (s : st fo) (lay : layout) (e : expr),
  split_ws1 c = [d_STRING; print lay e] ->
  vars_ident fo (all_vars fo (s_env s)) -> layout_ok lay -> int_expr e = true -> depth e <= 100 ->
  exists cname : str,
    exec_line fo child cx c n None s =
    (mkSt (s_g s) (s_env s) (Some (c, n)),
     IOk (mkCret [mkO (ByCommand cname) (s_STRING ++ [32%N] ++ Z_to_str (zeval e))] SNormal)).
Proof. exact dollar_string_arith. Qed.
Print Assumptions C11c_dollar_string_arith.

(* ------------------------------------------------------------------ computed witnesses (whole compiler) *)
Open Scope string_scope.

Theorem C11c_ex_dollar_string : forall fo, texts fo (run_text fo (prog ["$STRING (1+2)*3"])) = Some [lit "STRING 9"].
Proof. exact dollar_string. Qed.
Print Assumptions C11c_ex_dollar_string.

Theorem C11c_ex_dollar_unknown : forall fo, texts fo (run_text fo (prog ["$foo 1+1"])) = Some [lit "FOO 2"].
Proof. exact dollar_unknown. Qed.
Print Assumptions C11c_ex_dollar_unknown.

Theorem C11c_ex_dollar_enter_3 : forall fo,
  texts fo (run_text fo (prog ["$ENTER 1+2"])) = Some [lit "ENTER"; lit "ENTER"; lit "ENTER"].
Proof. exact dollar_enter_3. Qed.
Print Assumptions C11c_ex_dollar_enter_3.

Theorem C11c_ex_dollar_enter_neg : forall fo,
  texts fo (run_text fo (prog ["$ENTER 1-2"; "STRING x"])) = Some [lit "STRING x"].
Proof. exact dollar_enter_neg. Qed.
Print Assumptions C11c_ex_dollar_enter_neg.

Theorem C11c_ex_dollar_enter_bool : forall fo,
  err_of fo (run_text fo (prog ["$ENTER TRUE"])) = Some EInvalidArguments.
Proof. exact dollar_enter_bool. Qed.
Print Assumptions C11c_ex_dollar_enter_bool.
