(* C04d -- EXPRESSION LAYER o REFERENCE SEMANTICS.  Statements only; proofs in
   Proofs/ExprSpecCompose.v (one expression, one statement), Proofs/LayoutCongruence.v (whole
   programs), Proofs/LayoutCli.v (down to the CLI's output file), Proofs/ExprSpecExample.v.

   The unified specification (Spec/CoreAll.v) evaluates an expression TEXT t by
       eval fo sys f vs t v  :=  tokenize fo (visible fo sys f vs) t = Ok v
   where [visible] = system variables, then the IF flag $IF_SUCCESS, then the user variables.
   C04c says what [tokenize] returns on [print lay e] (abstract expression e, layout lay).

   a. C04d_eval_of_printed:  eval ... (print lay e) v  <->  eval_ref (visible ...) e = Ok v
      under exactly the hypotheses of C04c at the visible variables:
        vars_ident (visible f vs)  every visible name is an identifier (letters, digits, "_", not
                                   starting with a digit; ONE leading "$" allowed): true as soon
                                   as the user store's and the system variables' names are
                                   (C04d_visible_ident: $IF_SUCCESS and $DEFAULT_DELAY are);
        layout_ok lay              the runs of the layout are whitespace;
        expr_ok (visible f vs) e   literals are literals, operators are among the 14 symbols, every
                                   variable x of e is an identifier that starts like a name, does
                                   not begin with TRUE / FALSE and is not a prefix of TRUE / FALSE
                                   (bool_safe), and is DEFINED in the visible store
                                   (C04d_visible_defined: a user variable is);
        depth e <= 100.
   b. Statements: VAR x <print lay e> assigns the reference value (C04d_var_printed: iff, so it is
      the only derivation); $NAME <print lay e>; one arm of an IF chain is taken iff the reference
      value of its condition is truthy (C04d_arm_printed, C04d_if_printed).
      PROGRAMS: [progrel (lay_eq fo) prog prog']: the two programs are the same except that each
      expression text (argument of $NAME / VAR / $PRINT, condition of IF / ELIF / WHILE, count of
      REPEAT; NOT the arguments of RUN) is [print lay x] in one and [print lay' x] in the other for
      one abstract expression x, whose variables must be KNOWN TO BE DEFINED by a conservative
      static analysis (Proofs/LayoutCongruence.v [rel]): the VARs of the statements before it at
      the same level, the loop counter in a loop, ONLY the parameters in a function body, nothing
      at the start of an imported file; VAR names, counters and parameters are identifiers.
      C04d_layout_independent_programs: such programs have the same derivations (same depth,
      signal, flag, variables, OUTPUT LINES); C04d_layout_independent_events: the function tables
      are related, the events are the same up to the texts of block-header frames inside the piles
      of warnings (same prints with locations, same shapes).
      The general form C04d_congruence: ANY relation EQ on expression texts that is sound for
      [eval] in the stores that define D.
   NOT PROVED: (1) independence of REDUNDANT PARENTHESES for whole programs.  At the level of one
      expression it holds in stores whose values are normalised (C04d_eval_printed_paren, from
      C04c, where the hypothesis is shown necessary); for programs one needs the invariant "every
      stored value is normalised", which for parameters bound from a comma list needs the
      elements of list values to be normalised -- not available in the expression library.
      (2) that the NUMBER of de-duplicated warnings is the same in the two programs (de-duplication
      compares the header texts inside piles); the output lines and prints are the same.
      (3) a variable of an expression that the static analysis does not know (defined by an
      imported file, or a caller's variable used in a function body) is outside [progrel]. *)
From Coq Require Import String NArith ZArith List Bool Arith.
From DS Require Import Base PyStr Values Tables Constants Expr ExprAst Spelling ExprLang ExprPrint ExprCorollaries ExprExamples.
From DS Require Import TabParse Interp Options Cli CliWorld ImportGraph CliWorldSpec BlockTree CoreLang CoreFunc CoreText CoreTextParse.
From DS Require Import CoreAll CoreAllText CoreAllTextParse CoreAllErase CoreAllExample.
From DS Require Import CliSpecCompose ExprSpecCompose LayoutCongruence LayoutCli ExprSpecExample.
Import ListNotations.

(* ================================================================== a. one expression *)
Theorem C04d_eval_of_printed : forall (fo : FloatOps) (sys : store fo) f vs lay e v,
  vars_ident fo (visible fo sys f vs) -> layout_ok lay -> expr_ok fo (visible fo sys f vs) e -> depth e <= 100 ->
  (eval fo sys f vs (print lay e) v <-> eval_ref fo (visible fo sys f vs) e = Ok v).
Proof. exact eval_of_printed. Qed.
Print Assumptions C04d_eval_of_printed.

Theorem C04d_visible_ident : forall (fo : FloatOps) (sys : store fo) f vs,
  vars_ident fo sys -> vars_ident fo vs -> vars_ident fo (visible fo sys f vs).
Proof. exact visible_ident. Qed.
Print Assumptions C04d_visible_ident.

Theorem C04d_initial_sys_ident : forall fo, vars_ident fo (initial_sys fo).
Proof. exact initial_sys_ident. Qed.
Print Assumptions C04d_initial_sys_ident.

Theorem C04d_visible_defined : forall (fo : FloatOps) (sys : store fo) f vs x,
  lookup x (visible fo sys f vs) <> None <->
  In x (map fst vs) \/ In x (map fst (flag_var fo f)) \/ In x (map fst sys).
Proof. exact visible_defined_iff. Qed.
Print Assumptions C04d_visible_defined.

Theorem C04d_eval_printed_layout : forall (fo : FloatOps) (sys : store fo) f vs lay1 lay2 e v,
  vars_ident fo (visible fo sys f vs) -> layout_ok lay1 -> layout_ok lay2 -> expr_ok fo (visible fo sys f vs) e -> depth e <= 100 ->
  (eval fo sys f vs (print lay1 e) v <-> eval fo sys f vs (print lay2 e) v).
Proof. exact eval_printed_layout. Qed.
Print Assumptions C04d_eval_printed_layout.

Theorem C04d_eval_printed_paren : forall (fo : FloatOps) (sys : store fo) f vs lay lay' e e' v,
  vars_ident fo (visible fo sys f vs) -> vars_normal fo (visible fo sys f vs) -> layout_ok lay -> layout_ok lay' ->
  expr_ok fo (visible fo sys f vs) e -> add_paren e e' -> depth e <= 100 -> depth e' <= 100 ->
  (eval fo sys f vs (print lay e) v <-> eval fo sys f vs (print lay' e') v).
Proof. exact eval_printed_paren. Qed.
Print Assumptions C04d_eval_printed_paren.

(* ================================================================== b. statements *)
Theorem C04d_var_printed : forall (fo : FloatOps) (sys : store fo) prog inc sup d pile cf n F f vs x lay e sg F' f' vs' out ev,
  vars_ident fo (visible fo sys f vs) -> layout_ok lay -> expr_ok fo (visible fo sys f vs) e -> depth e <= 100 ->
  (CoreAll.exec fo sys prog inc sup d pile cf n F f vs (UVar x (print lay e)) sg F' f' vs' out ev <->
   exists v, eval_ref fo (visible fo sys f vs) e = Ok v /\
             sg = Normal /\ F' = F /\ f' = f /\ vs' = set_var fo x v vs /\ out = [] /\ ev = []).
Proof. exact var_printed. Qed.
Print Assumptions C04d_var_printed.

Theorem C04d_emit_eval_printed : forall (fo : FloatOps) (sys : store fo) prog inc sup d pile cf n F f vs name lay e sg F' f' vs' out ev,
  vars_ident fo (visible fo sys f vs) -> layout_ok lay -> expr_ok fo (visible fo sys f vs) e -> depth e <= 100 ->
  (CoreAll.exec fo sys prog inc sup d pile cf n F f vs (UEmitEval name (print lay e)) sg F' f' vs' out ev <->
   exists v t, eval_ref fo (visible fo sys f vs) e = Ok v /\ py_str fo v = Some t /\
             sg = Normal /\ F' = F /\ f' = f /\ vs' = vs /\ out = [LCode (name ++ sp :: t)] /\ ev = []).
Proof. exact emit_eval_printed. Qed.
Print Assumptions C04d_emit_eval_printed.

(* an arm whose condition has the reference value v: taken iff v is truthy *)
Theorem C04d_arm_printed : forall (fo : FloatOps) (sys : store fo) prog inc sup d pile cf first n F b vs lay c body rest els sg taken vs' out ev v,
  vars_ident fo (visible fo sys (Some b) vs) -> layout_ok lay -> expr_ok fo (visible fo sys (Some b) vs) c -> depth c <= 100 ->
  eval_ref fo (visible fo sys (Some b) vs) c = Ok v ->
  (CoreAll.exec_arms fo sys prog inc sup d pile cf first n F b vs ((print lay c, body) :: rest) els sg taken vs' out ev <->
   if truthy fo v
   then exists d' F1 f1 vs1, d = S d' /\ taken = true /\ vs' = copy_back fo vs vs1 /\
          CoreAll.exec_list fo sys prog inc sup d' (pile ++ [mkSF cf (if_head first (print lay c)) n false]) cf (n + 1) F None vs body sg F1 f1 vs1 out ev /\
          (sg = Normal -> Forall (fun cb : str * list ustmt => exists v', eval fo sys (Some true) (copy_back fo vs vs1) (fst cb) v') rest)
   else CoreAll.exec_arms fo sys prog inc sup d pile cf false (n + 1 + sum_sizes usize body) F false vs rest els sg taken vs' out ev).
Proof. exact arm_printed. Qed.
Print Assumptions C04d_arm_printed.

Theorem C04d_if_printed : forall (fo : FloatOps) (sys : store fo) prog inc sup d pile cf n F f vs lay c body sg F' f' vs' out ev v,
  let b := match f with Some b => b | None => false end in
  vars_ident fo (visible fo sys (Some b) vs) -> layout_ok lay -> expr_ok fo (visible fo sys (Some b) vs) c -> depth c <= 100 ->
  eval_ref fo (visible fo sys (Some b) vs) c = Ok v ->
  (CoreAll.exec fo sys prog inc sup d pile cf n F f vs (UIf [(print lay c, body)] None) sg F' f' vs' out ev <->
   if truthy fo v
   then exists d' F1 f1 vs1, d = S d' /\ F' = F /\ f' = Some true /\ vs' = copy_back fo vs vs1 /\
          CoreAll.exec_list fo sys prog inc sup d' (pile ++ [mkSF cf (if_head true (print lay c)) n false]) cf (n + 1) F None vs body sg F1 f1 vs1 out ev
   else sg = Normal /\ F' = F /\ f' = Some false /\ vs' = vs /\ out = [] /\ ev = []).
Proof. exact if_printed. Qed.
Print Assumptions C04d_if_printed.

(* ================================================================== b. programs *)
(* the general congruence: EQ sound for eval where D is defined and names are identifiers *)
Theorem C04d_congruence : forall (fo : FloatOps) (EQ : list str -> str -> str -> Prop) inc sup prog prog' entry d sg f vs out,
  eq_sound fo EQ -> progrel EQ prog prog' ->
  ((exists F ev, uruns fo prog inc sup entry d sg F f vs out ev) <->
   (exists F' ev', uruns fo prog' inc sup entry d sg F' f vs out ev')).
Proof. exact cong_uruns. Qed.
Print Assumptions C04d_congruence.

(* ... inside a program: any statement list, any place, related tables and piles *)
Theorem C04d_congruence_list : forall (fo : FloatOps) (sys : store fo) inc sup (EQ : list str -> str -> str -> Prop),
  (forall D e e' f vs v, EQ D e e' -> covers fo D vs -> eval fo sys f vs e v -> eval fo sys f vs e' v) ->
  forall prog prog2,
  (forall m stmts, lookup m prog = Some stmts -> exists stmts', lookup m prog2 = Some stmts' /\ lrel EQ [] stmts stmts') ->
  forall d pile cf n F f vs p sg F1 f1 vs1 out ev D p' F' pile',
  CoreAll.exec_list fo sys prog inc sup d pile cf n F f vs p sg F1 f1 vs1 out ev ->
  lrel EQ D p p' -> covers fo D vs -> trel EQ F F' -> prel pile pile' ->
  exists F1' ev', CoreAll.exec_list fo sys prog2 inc sup d pile' cf n F' f vs p' sg F1' f1 vs1 out ev' /\
                  trel EQ F1 F1' /\ evrel ev ev'.
Proof. exact cong_list. Qed.
Print Assumptions C04d_congruence_list.

Theorem C04d_lay_eq_sound : forall fo, eq_sound fo (lay_eq fo).
Proof. exact lay_eq_sound. Qed.
Print Assumptions C04d_lay_eq_sound.

(* the related statements occupy the same lines *)
Theorem C04d_related_sizes : forall EQ D p p', lrel EQ D p p' -> sum_sizes usize p' = sum_sizes usize p.
Proof. exact lrel_sizes. Qed.
Print Assumptions C04d_related_sizes.

(* PROGRAMS THAT DIFFER ONLY IN THE LAYOUT OF THEIR EXPRESSIONS HAVE THE SAME DERIVATIONS *)
Theorem C04d_layout_independent_programs : forall (fo : FloatOps) inc sup prog prog' entry d sg f vs out,
  progrel (lay_eq fo) prog prog' ->
  ((exists F ev, uruns fo prog inc sup entry d sg F f vs out ev) <->
   (exists F' ev', uruns fo prog' inc sup entry d sg F' f vs out ev')).
Proof. exact layout_independent_programs. Qed.
Print Assumptions C04d_layout_independent_programs.

Theorem C04d_layout_independent_events : forall (fo : FloatOps) inc sup prog prog' entry d sg F f vs out ev,
  progrel (lay_eq fo) prog prog' ->
  uruns fo prog inc sup entry d sg F f vs out ev ->
  exists F' ev', uruns fo prog' inc sup entry d sg F' f vs out ev' /\ trel (lay_eq fo) F F' /\ evrel ev ev' /\
                 prints_of ev = prints_of ev' /\ map shape ev = map shape ev'.
Proof. exact layout_independent_programs_events. Qed.
Print Assumptions C04d_layout_independent_events.

(* down to the CLI (with C19c): each program on disk in its own world, same options: both compiles
   succeed and write THE SAME output file content *)
Theorem C04d_cli_layout_independent : forall (fo : FloatOps) w w' u u' dir prog prog' entry output limit comments d sg Fs f vs out ev,
  wf_unit u -> no_nl u -> prog_wf prog -> on_disk w u dir prog ->
  wf_unit u' -> no_nl u' -> prog_wf prog' -> on_disk w' u' dir prog' ->
  progrel (lay_eq fo) prog prog' ->
  effective_options w' (file_of dir entry) limit comments = effective_options w (file_of dir entry) limit comments ->
  uruns fo prog (include_comments (effective_options w (file_of dir entry) limit comments))
        (supress_command_not_exist (effective_options w (file_of dir entry) limit comments))
        entry d sg Fs f vs out ev ->
  (Z.of_nat d < stack_limit (effective_options w (file_of dir entry) limit comments))%Z ->
  exists w1 w1' ev',
    cli_step fo w (OpCompile (file_of dir entry) output limit comments) = (w1, RSuccess (length (warnings_of ev))) /\
    cli_step fo w' (OpCompile (file_of dir entry) output limit comments) = (w1', RSuccess (length (warnings_of ev'))) /\
    w_files w1 output = Some (join [10%N] (map line_text out)) /\
    w_files w1' output = Some (join [10%N] (map line_text out)) /\
    prints_of ev' = prints_of ev /\ map shape ev' = map shape ev.
Proof. exact cli_layout_independent. Qed.
Print Assumptions C04d_cli_layout_independent.

(* ================================================================== c. examples *)
Open Scope string_scope.
(* the texts: (1+2)*3, x>5, x-1 with the empty layout and with one space in every slot *)
Theorem C04d_example_texts :
  print lay_a e9 = S_ "(1+2)*3" /\ print lay_b e9 = S_ " ( 1 + 2 ) *3" /\
  print lay_a cond_e = S_ "x>5" /\ print lay_b cond_e = S_ " x > 5 " /\
  print lay_a last_e = S_ "x-1" /\ print lay_b last_e = S_ " x - 1 ".
Proof. exact printed_texts. Qed.
Print Assumptions C04d_example_texts.

(* VAR y <(1+2)*3>, any layout, any store with identifier names, any FloatOps: y := 9 *)
Theorem C04d_example_var : forall (fo : FloatOps) (sys : store fo) prog inc sup d pile cf n F f vs y lay,
  vars_ident fo (visible fo sys f vs) -> layout_ok lay ->
  CoreAll.exec fo sys prog inc sup d pile cf n F f vs (UVar y (print lay e9)) Normal F f (set_var fo y (VInt 9) vs) [] [].
Proof. exact var_e9. Qed.
Print Assumptions C04d_example_var.

Theorem C04d_example_computed :
  tokenize fo1 [] (print lay_a e9) = Ok (VInt 9) /\ tokenize fo1 [] (print lay_b e9) = Ok (VInt 9) /\
  eval_ref fo1 [] e9 = Ok (VInt 9).
Proof. exact e9_computed. Qed.
Print Assumptions C04d_example_computed.

(* two programs  VAR x (1+2)*3 / IF x>5 / STRING big / $STRING x-1  in the two layouts: different
   texts, related; A's derivation by hand, B's THROUGH THE THEOREM *)
Theorem C04d_example_programs : forall fo,
  prog_a <> prog_b /\ progrel (lay_eq fo) prog_a prog_b.
Proof. exact progs_differ_related. Qed.
Print Assumptions C04d_example_programs.

Theorem C04d_example_a_runs : forall fo inc sup,
  uruns fo prog_a inc sup n_main 1 Normal [] (Some true) [(x_, VInt 9)] [LCode (S_ "STRING big"); LCode (S_ "STRING 8")] [].
Proof. exact prog_a_runs. Qed.
Print Assumptions C04d_example_a_runs.

Theorem C04d_example_b_runs : forall fo inc sup,
  exists F' ev', uruns fo prog_b inc sup n_main 1 Normal F' (Some true) [(x_, VInt 9)] [LCode (S_ "STRING big"); LCode (S_ "STRING 8")] ev' /\
                 prints_of ev' = [] /\ map shape ev' = [].
Proof. exact prog_b_runs. Qed.
Print Assumptions C04d_example_b_runs.
