(* C04 (end to end, with parentheses and "!( )") -- every well-formed expression evaluates to the value
   the documented rules give it: "^" binds tighter than "* / // %", those tighter than "+ -", those
   tighter than the six comparisons; operators of equal rank associate left to right; parentheses
   override; "+" concatenates when either side is a string; "!( )" negates; integral results are
   integers; the value is independent of spacing and of redundant parentheses.
   Statements only; the proofs live in Proofs/.  Vocabulary: Spec/ExprLang.v (abstract syntax [expr],
   the printer [print lay e], the reference evaluator [eval_ref], [balanced], [spell_group]) on top of
   Spec/Spelling.v (spelled tokens, layouts) and Spec/ExprAst.v (ranks).

   NOTE on the statement.  The main theorem as first proposed,
       forall vars lay e, expr_ok vars e -> depth e <= 100 -> tokenize fo vars (print lay e) = eval_ref vars e,
   is FALSE of the model without two further hypotheses; both are stated here:
   - [layout_ok lay]: the runs of the layout are whitespace ([ex_layout_ok_needed]: with the run "1"
     the literal 1 is printed "11");
   - [vars_ident vars]: every defined name is an identifier ([ex_vars_ident_needed]: with a variable
     named "(1)" the text "(1)" is that variable (7), not the literal in parentheses (1)).
   The bound [depth e <= 100] is tight ([ex_depth_tight]): 101 nested pairs raise StackOverflowError.
   [paren_independent] needs the stored values to be normalised ([ex_vars_normal_needed]: an integral
   float in x makes x + "a" and (x) + "a" differ). *)
From Coq Require Import NArith ZArith List Bool.
From DS Require Import Base PyStr Values Tables Expr ExprAst Spelling ScanRun ExprLang GroupToken ExprPrint
  ExprCorollaries GroupSpelled ExprExamples.
Import ListNotations.

(* ------------------------------------------------------------------ 1. the group token *)
(* From a token-start state in value position whose text begins with "(" inner ")" or "!(" inner ")",
   inner balanced outside string literals with nesting depth <= 99 (so that the group has depth <= 100,
   the generated paren_limit), the scanner appends PGroup inner neg and continues right after the
   matching parenthesis -- for ANY rest.  The side condition: no defined name begins with "(" / "!". *)
Theorem group_token_C04c : forall (fo : FloatOps) (vars : vars_t fo) (inner : str) (neg : bool)
    (r : str) (out : list (ptok fo)),
  balanced group_limit inner ->
  (forall w : str, In w (map fst vars) -> startswith [if neg then bang else lpar] w = false) ->
  leads fo vars (TS fo (spell_group inner neg ++ r) false out) (TS fo r true (PGroup inner neg :: out)).
Proof. exact group_token. Qed.
Print Assumptions group_token_C04c.

Theorem group_token_ident_C04c : forall (fo : FloatOps) (vars : vars_t fo) (inner : str) (neg : bool)
    (r : str) (out : list (ptok fo)),
  vars_ident fo vars -> balanced group_limit inner ->
  leads fo vars (TS fo (spell_group inner neg ++ r) false out) (TS fo r true (PGroup inner neg :: out)).
Proof. exact group_token_ident. Qed.
Print Assumptions group_token_ident_C04c.

(* scanner correctness for the extended vocabulary (values, operators, groups), every layout *)
Theorem scan_gspelled_C04c : forall (fo : FloatOps) (vars : vars_t fo),
  vars_ident fo vars ->
  forall (lay : layout) (toks : list gtok),
  galternating toks -> Forall (gtok_ok fo vars) toks -> layout_ok lay ->
  convert_string fo vars (gspell lay toks) = Ok (map (gptok_of fo vars) toks).
Proof. exact scan_gspelled. Qed.
Print Assumptions scan_gspelled_C04c.

(* the printed text of an expression is balanced, to its nesting depth *)
Theorem text_balanced_C04c : forall (fo : FloatOps) (vars : vars_t fo) (ws : nat -> str),
  (forall i : nat, forallb isspace_c (ws i) = true) ->
  forall (lim : nat) (e : expr) (n : nat),
  expr_ok fo vars e -> gdepth e <= lim -> balanced lim (text ws e n).
Proof. exact text_balanced. Qed.
Print Assumptions text_balanced_C04c.

(* ------------------------------------------------------------------ 2./3. the main theorem *)
(* stage 2: expressions that need no further parentheses ([ewb]), any supply of whitespace runs *)
Theorem tokenize_text_C04c : forall (fo : FloatOps) (vars : vars_t fo),
  vars_ident fo vars ->
  forall ws : nat -> str, (forall i : nat, forallb isspace_c (ws i) = true) ->
  forall (e : expr) (n : nat),
  expr_ok fo vars e -> ewb e -> gdepth e <= 100 ->
  tokenize fo vars (text ws e n) = eval_ref fo vars e.
Proof. exact tokenize_text. Qed.
Print Assumptions tokenize_text_C04c.

(* the printer's parentheses make every expression [ewb] and do not change the reference value *)
Theorem ewb_paren_C04c : forall (fo : FloatOps) (vars : vars_t fo) (e : expr),
  expr_ok fo vars e -> ewb (paren e).
Proof. exact ewb_paren. Qed.
Print Assumptions ewb_paren_C04c.

Theorem eval_ref_paren_C04c : forall (fo : FloatOps) (vars : vars_t fo) (e : expr),
  eval_ref fo vars (paren e) = eval_ref fo vars e.
Proof. exact eval_ref_paren. Qed.
Print Assumptions eval_ref_paren_C04c.

(* THE END-TO-END THEOREM: for all expressions (no size bound), every layout, every environment whose
   names are identifiers: the tokenizer on the printed text returns the reference value *)
Theorem tokenize_print_C04c : forall (fo : FloatOps) (vars : vars_t fo),
  vars_ident fo vars ->
  forall (lay : layout) (e : expr),
  layout_ok lay -> expr_ok fo vars e -> depth e <= 100 ->
  tokenize fo vars (print lay e) = eval_ref fo vars e.
Proof. exact tokenize_print. Qed.
Print Assumptions tokenize_print_C04c.

(* ------------------------------------------------------------------ 4. corollaries *)
Theorem spacing_independent_expr_C04c : forall (fo : FloatOps) (vars : vars_t fo),
  vars_ident fo vars ->
  forall (lay1 lay2 : layout) (e : expr),
  layout_ok lay1 -> layout_ok lay2 -> expr_ok fo vars e -> depth e <= 100 ->
  tokenize fo vars (print lay1 e) = tokenize fo vars (print lay2 e).
Proof. exact spacing_independent_expr. Qed.
Print Assumptions spacing_independent_expr_C04c.

Theorem normalise_idem_C04c : forall (fo : FloatOps) (v : value fo),
  normalise fo (normalise fo v) = normalise fo v.
Proof. exact normalise_idem. Qed.
Print Assumptions normalise_idem_C04c.

(* a pair of parentheses around any sub-expression does not change the value *)
Theorem paren_independent_C04c : forall (fo : FloatOps) (vars : vars_t fo) (e e' : expr),
  vars_normal fo vars -> add_paren e e' -> eval_ref fo vars e' = eval_ref fo vars e.
Proof. exact paren_independent. Qed.
Print Assumptions paren_independent_C04c.

Theorem unparen_eval_C04c : forall (fo : FloatOps) (vars : vars_t fo) (e : expr),
  vars_normal fo vars -> eval_ref fo vars (unparen e) = eval_ref fo vars e.
Proof. exact unparen_eval. Qed.
Print Assumptions unparen_eval_C04c.

(* ... at the level of texts, in any two layouts *)
Theorem paren_independent_text_C04c : forall (fo : FloatOps) (vars : vars_t fo) (lay lay' : layout)
    (e e' : expr),
  vars_ident fo vars -> vars_normal fo vars -> layout_ok lay -> layout_ok lay' ->
  expr_ok fo vars e -> add_paren e e' -> depth e <= 100 -> depth e' <= 100 ->
  tokenize fo vars (print lay' e') = tokenize fo vars (print lay e).
Proof. exact paren_independent_text. Qed.
Print Assumptions paren_independent_text_C04c.

(* integer literals, + - *, parentheses: ordinary integer arithmetic *)
Theorem int_adequacy_C04c : forall (fo : FloatOps) (vars : vars_t fo) (e : expr),
  int_expr e = true -> eval_ref fo vars e = Ok (VInt (zeval e)).
Proof. exact int_adequacy. Qed.
Print Assumptions int_adequacy_C04c.

Theorem int_adequacy_text_C04c : forall (fo : FloatOps) (vars : vars_t fo) (lay : layout) (e : expr),
  vars_ident fo vars -> layout_ok lay -> int_expr e = true -> depth e <= 100 ->
  tokenize fo vars (print lay e) = Ok (VInt (zeval e)).
Proof. exact int_adequacy_text. Qed.
Print Assumptions int_adequacy_text_C04c.

(* "/", "//", "%" by the integer zero *)
Theorem div_zero_C04c : forall (fo : FloatOps) (vars : vars_t fo) (sym : str) (e1 e2 : expr) (v1 : value fo),
  In sym [sym_div; sym_fdiv; sym_mod] ->
  eval_in fo vars e1 = Ok v1 -> is_number fo v1 = true -> eval_in fo vars e2 = Ok (VInt 0) ->
  eval_ref fo vars (EBin OCMath sym e1 e2) = Err EDivideByZero.
Proof. exact div_zero. Qed.
Print Assumptions div_zero_C04c.

Theorem div_zero_text_C04c : forall (fo : FloatOps) (vars : vars_t fo) (lay : layout) (sym : str)
    (e1 e2 : expr) (v1 : value fo),
  vars_ident fo vars -> layout_ok lay ->
  In sym [sym_div; sym_fdiv; sym_mod] -> expr_ok fo vars e1 -> expr_ok fo vars e2 ->
  depth (EBin OCMath sym e1 e2) <= 100 ->
  eval_in fo vars e1 = Ok v1 -> is_number fo v1 = true -> eval_in fo vars e2 = Ok (VInt 0) ->
  tokenize fo vars (print lay (EBin OCMath sym e1 e2)) = Err EDivideByZero.
Proof. exact div_zero_text. Qed.
Print Assumptions div_zero_text_C04c.

(* the remaining documented rules, read off the reference evaluator *)
Theorem eval_ref_normal_C04c : forall (fo : FloatOps) (vars : vars_t fo) (e : expr) (v : value fo),
  eval_ref fo vars e = Ok v -> normalise fo v = v.
Proof. exact eval_ref_normal. Qed.
Print Assumptions eval_ref_normal_C04c.

Theorem plus_concat_C04c : forall (fo : FloatOps) (vars : vars_t fo) (e1 e2 : expr) (v1 v2 : value fo)
    (s1 s2 : str),
  eval_in fo vars e1 = Ok v1 -> eval_in fo vars e2 = Ok v2 ->
  is_str fo v1 || is_str fo v2 = true -> py_str fo v1 = Some s1 -> py_str fo v2 = Some s2 ->
  eval_ref fo vars (EBin OCMath sym_plus e1 e2) = Ok (VStr (s1 ++ s2)).
Proof. exact plus_concat. Qed.
Print Assumptions plus_concat_C04c.

Theorem not_negates_C04c : forall (fo : FloatOps) (vars : vars_t fo) (e : expr) (v : value fo),
  eval_in fo vars e = Ok v ->
  eval_ref fo vars (ENot e) = Ok (VBool (negb (truthy fo (normalise fo v)))).
Proof. exact not_negates. Qed.
Print Assumptions not_negates_C04c.

Theorem cmp_adequacy_C04c : forall (fo : FloatOps) (vars : vars_t fo) (sym : str) (e1 e2 : expr) (a b : Z),
  In sym [sym_eq; sym_ne; sym_lt; sym_gt; sym_le; sym_ge] ->
  eval_in fo vars e1 = Ok (VInt a) -> eval_in fo vars e2 = Ok (VInt b) ->
  eval_ref fo vars (EBin OCCond sym e1 e2) = Ok (VBool (zcmp sym a b)).
Proof. exact cmp_adequacy. Qed.
Print Assumptions cmp_adequacy_C04c.

(* ------------------------------------------------------------------ witnesses (dummy FloatOps fo1) *)
(* the hypotheses are needed / the bound is tight *)
Theorem ex_vars_ident_needed_C04c :
  let vars : vars_t fo1 := [([40; 49; 41]%N, VInt 7)] in
  expr_ok fo1 vars (EParen i1) /\ depth (EParen i1) <= 100 /\
  tokenize fo1 vars (print [] (EParen i1)) = Ok (VInt 7) /\
  eval_ref fo1 vars (EParen i1) = Ok (VInt 1).
Proof. exact ex_vars_ident_needed. Qed.
Print Assumptions ex_vars_ident_needed_C04c.

Theorem ex_depth_tight_C04c :
  depth (nest 100 i1) = 100 /\ tokenize fo1 [] (print [] (nest 100 i1)) = Ok (VInt 1) /\
  depth (nest 101 i1) = 101 /\ tokenize fo1 [] (print [] (nest 101 i1)) = Err EStackOverflow.
Proof. exact ex_depth_tight. Qed.
Print Assumptions ex_depth_tight_C04c.

Theorem ex_vars_normal_needed_C04c :
  eval_ref fo1 vx (plus (EVar [120]%N) (ELit (SStr [97]%N))) = Ok (VStr [50; 46; 48; 97]%N) /\
  eval_ref fo1 vx (plus (EParen (EVar [120]%N)) (ELit (SStr [97]%N))) = Ok (VStr [50; 97]%N) /\
  tokenize fo1 vx (print [] (plus (EVar [120]%N) (ELit (SStr [97]%N)))) = Ok (VStr [50; 46; 48; 97]%N) /\
  tokenize fo1 vx (print [] (plus (EParen (EVar [120]%N)) (ELit (SStr [97]%N)))) = Ok (VStr [50; 97]%N).
Proof. exact ex_vars_normal_needed. Qed.
Print Assumptions ex_vars_normal_needed_C04c.

(* printed texts and values: "(1+2)*3" = 9;  " 1\t -(2-3)" = 2;  "1+2*3" = 7;  "2^3^2" = 64;
   "2^(3^2)" = 512;  "1+2<3*3" = TRUE *)
Theorem ex_left_paren_C04c :
  print [] (times (plus i1 i2) i3) = [40; 49; 43; 50; 41; 42; 51]%N /\
  tokenize fo1 [] (print [] (times (plus i1 i2) i3)) = Ok (VInt 9) /\
  eval_ref fo1 [] (times (plus i1 i2) i3) = Ok (VInt 9).
Proof. exact ex_left_paren. Qed.
Print Assumptions ex_left_paren_C04c.

Theorem ex_right_paren_C04c :
  print [[32]; [9; 32]]%N (minus i1 (minus i2 i3)) = [32; 49; 9; 32; 45; 40; 50; 45; 51; 41]%N /\
  tokenize fo1 [] (print [[32]; [9; 32]]%N (minus i1 (minus i2 i3))) = Ok (VInt 2) /\
  eval_ref fo1 [] (minus i1 (minus i2 i3)) = Ok (VInt 2).
Proof. exact ex_right_paren. Qed.
Print Assumptions ex_right_paren_C04c.

Theorem ex_not_C04c :
  print [[32]; []; []; [32]]%N ex_not_expr = [32; 33; 40; 40; 49; 32; 41; 61; 61; 51; 45; 50; 41]%N /\
  tokenize fo1 [] (print [[32]; []; []; [32]]%N ex_not_expr) = Ok (VBool false) /\
  eval_ref fo1 [] ex_not_expr = Ok (VBool false).
Proof. exact ex_not. Qed.
Print Assumptions ex_not_C04c.
