(* C12e -- FILES ON DISK, and START AS PASTE.  Statements only.

   1. THE END-TO-END THEOREM (C12e_refinement_files).  A program = a finite map of files
      (Spec/CoreAll.v program).  Its files are written to disk in the folder dir, file m at
      dir/m.txt, rendered with ANY indent unit u (Spec/CoreAllText.v: fs_of u dir prog; the file
      system holds nothing else).  The text of the entry file is given to Compiler.compile
      (compile_text) with the options o.  If the reference semantics has a derivation
         uruns fo prog (include_comments o) (supress_command_not_exist o) entry d sg Fs' f' vs' out ev
      within the stack limit, the compiler returns IOk with exactly the derivation's output texts,
      prints (text, line, file), warnings (de-duplicated, with stack traces), final variables,
      flag and functions.  The hypothesis prog_ok of C12d (an assumption on the parser) is GONE;
      what remains is about the program's spelling:
         prog_wf prog   every file is well formed (uwf_list) and its heads are plain (C03d:
                        no newline inside a line, no line beginning with three double quotes)
         wf_unit u, no_nl u   the indent unit is blanks, begins with space or tab, has no newline.

   2. START AS PASTE, on the specification alone (Proofs/CoreAllPaste.v, CoreAllSim.v,
      CoreAllKeys.v).  Vocabulary:
         shape e           the event e WITHOUT its location (line, file, pile of stack frames):
                           SPrint text | SUnknown line-text | SStray b       (Spec/CoreAllErase.v)
         tsim false ks F F2   F2 has the functions of F (same names in the same order, same
                           parameters, same bodies), each defined in the same file or in a file of ks
         Loc ks pile cf pile2 cf2   place (pile2, cf2) against place (pile, cf): the files of ks
                           are live at (pile, cf), every file live at (pile2, cf2) is live at
                           (pile, cf), and cf2 = cf or cf2 is in ks.
      C12e_relocate:  statements can be MOVED (other file, other line numbers, other stack below)
                      without changing signal, flag, store, output; events up to locations.
      C12e_start_paste (from C12d_start_rule): `START f` vs the statements of f in its place.
      C12e_paste_in_context: the paste equation inside a statement list.
      What differs, each with a pair of concrete derivations (Proofs/CoreAllPasteExamples.v):
         - the locations inside events (C12e_differs_locations) and function definitions
           (C12e_differs_function_home);
         - the IF flag: the file runs with NO flag and cannot change the importer's
           (C12e_differs_flag_left, C12e_differs_flag_seen);
         - RETURN ends the file only (C12e_differs_return);
         - a stray BREAKLOOP / CONTINUELOOP ends the file with a warning, the importer goes on
           (C12e_differs_stray_break). *)
From Coq Require Import String NArith ZArith List Bool.
From DS Require Import Base PyStr Values Expr TabParse Tables Constants Interp ScopeProofs ImportGraph BlockTree.
From DS Require Import CoreLang CoreWf CoreRefine CoreFunc CoreText CoreTextParse.
From DS Require Import CoreAll CoreAllText CoreAllErase CoreAllLines CoreAllBase CoreAllRefine CoreAllTop CoreAllExample CoreAllFs.
From DS Require Import CoreAllTextForest CoreAllTextParse CoreAllTextExample CoreAllSim CoreAllKeys CoreAllPaste CoreAllPasteExamples.
Import ListNotations.

Arguments IOk {A}. Arguments IErr {A}.
Arguments e_sys : clear implicits. Arguments e_user : clear implicits. Arguments e_temp : clear implicits.
Arguments e_funcs : clear implicits. Arguments mkEnv : clear implicits.

(* ================================================================== 1. files on disk *)
(* prog_ok (the hypothesis of C12d_refinement_compile_items) holds of the rendered file system *)
Theorem C12e_prog_ok_fs_of : forall u dir prog,
  wf_unit u -> no_nl u -> prog_wf prog -> prog_ok dir prog (fs_of u dir prog).
Proof. exact prog_ok_fs_of. Qed.
Print Assumptions C12e_prog_ok_fs_of.

Theorem C12e_refinement_files : forall (fo : FloatOps) (u : str) (dir : path) (prog : program) o entry d sg Fs' f' vs' out ev,
  wf_unit u -> no_nl u -> prog_wf prog ->
  uruns fo prog (include_comments o) (supress_command_not_exist o) entry d sg Fs' f' vs' out ev ->
  (Z.of_nat d < stack_limit o)%Z ->
  exists stmts ol F', lookup entry prog = Some stmts /\
    map o_text ol = map line_text out /\ utab_rel dir Fs' F' /\
    compile_text fo o (fs_of u dir prog) (Some (file_of dir entry)) (utext_of u stmts) =
    (CoreAllBase.apply_evs dir ev (mkGlob [] []),
     IOk (mkCompiled fo ol
            (map (CoreAllBase.conc_warning dir) (warnings_of ev))
            (mkEnv fo (initial_sys fo) vs' (flag_var fo f') F')
            (map (CoreAllBase.conc_print dir) (prints_of ev)))).
Proof. exact refinement_files. Qed.
Print Assumptions C12e_refinement_files.

(* the text given to the compiler IS the content of the entry file on that disk *)
Theorem C12e_entry_text_on_disk : forall u dir prog entry stmts, lookup entry prog = Some stmts ->
  fs_of u dir prog (file_of dir entry) = Some (utext_of u stmts).
Proof. exact entry_text_on_disk. Qed.
Print Assumptions C12e_entry_text_on_disk.

(* ------------------------------------------------------------------ non-vacuity: the two-file program *)
Theorem C12e_two_files_wf : prog_wf two_files.
Proof. exact two_files_wf. Qed.
Print Assumptions C12e_two_files_wf.

(* through the theorem, indent unit = one TAB *)
Theorem C12e_two_files_tab : forall fo inc sup, exists ol F',
  map o_text ol = map line_text (ex_out inc) /\
  utab_rel ex_dir [(CoreAllExample.S_ "greet", greet_def)] F' /\
  compile_text fo (ex_opts inc sup) (fs_of u_tab ex_dir two_files) (Some (file_of ex_dir n_main)) (utext_of u_tab main_stmts) =
  (CoreAllBase.apply_evs ex_dir (ex_events sup) (mkGlob [] []),
   IOk (mkCompiled fo ol
          (map (CoreAllBase.conc_warning ex_dir) (warnings_of (ex_events sup)))
          (mkEnv fo (initial_sys fo) [(CoreAllExample.S_ "x", VInt 5)] [] F')
          (map (CoreAllBase.conc_print ex_dir) (prints_of (ex_events sup))))).
Proof. exact two_files_tab_by_theorem. Qed.
Print Assumptions C12e_two_files_tab.

(* ... indent unit = two spaces *)
Theorem C12e_two_files_two_spaces : forall fo inc sup, exists ol F',
  map o_text ol = map line_text (ex_out inc) /\
  utab_rel ex_dir [(CoreAllExample.S_ "greet", greet_def)] F' /\
  compile_text fo (ex_opts inc sup) (fs_of u_two ex_dir two_files) (Some (file_of ex_dir n_main)) (utext_of u_two main_stmts) =
  (CoreAllBase.apply_evs ex_dir (ex_events sup) (mkGlob [] []),
   IOk (mkCompiled fo ol
          (map (CoreAllBase.conc_warning ex_dir) (warnings_of (ex_events sup)))
          (mkEnv fo (initial_sys fo) [(CoreAllExample.S_ "x", VInt 5)] [] F')
          (map (CoreAllBase.conc_print ex_dir) (prints_of (ex_events sup))))).
Proof. exact two_files_two_spaces_by_theorem. Qed.
Print Assumptions C12e_two_files_two_spaces.

(* the same by COMPUTATION (vm_compute of compile_text on the rendered files): output texts, prints,
   warnings, user variables, function names = what the derivation says *)
Theorem C12e_two_files_tab_computed : forall fo inc sup, files_result fo u_tab inc sup = expected_result fo inc sup.
Proof. exact two_files_tab_computed. Qed.
Print Assumptions C12e_two_files_tab_computed.

Theorem C12e_two_files_two_spaces_computed : forall fo inc sup, files_result fo u_two inc sup = expected_result fo inc sup.
Proof. exact two_files_two_spaces_computed. Qed.
Print Assumptions C12e_two_files_two_spaces_computed.

Theorem C12e_two_files_expected_spelled : forall fo,
  expected_result fo true false =
  Some ([CoreAllExample.S_ "STRING hi"; CoreAllExample.S_ "FOO bar"; CoreAllExample.S_ "REM done"; CoreAllExample.S_ "STRING 5"],
        [mkPrint (CoreAllExample.S_ "loaded") 4 lib_path; mkPrint (CoreAllExample.S_ "hello") 2 lib_path],
        [mkWarn (unknown_warning_text 4) (Some [mkFrame main_path (CoreAllExample.S_ "FOO bar", 4%Z) None])],
        [(CoreAllExample.S_ "x", VInt 5)], [CoreAllExample.S_ "greet"]).
Proof. exact two_files_expected_spelled. Qed.
Print Assumptions C12e_two_files_expected_spelled.

(* the rendered lib file, with each unit *)
Theorem C12e_lib_text_two_spaces : utext_of u_two lib_stmts =
  ChainLoopExamples.prog ["FUNC greet"; "  PRINT hello"; "  STRING hi"; "PRINT loaded"]%string.
Proof. exact lib_text_two. Qed.
Print Assumptions C12e_lib_text_two_spaces.

(* ================================================================== 2. START as paste *)
(* moving statements: another place, the functions possibly defined elsewhere *)
Theorem C12e_relocate : forall (fo : FloatOps) (sys : store fo) prog inc sup ks d pile cf n F f vs p sg F' f' vs' out ev pile2 cf2 n2 F2,
  CoreAll.exec_list fo sys prog inc sup d pile cf n F f vs p sg F' f' vs' out ev ->
  Loc ks pile cf pile2 cf2 -> tsim false ks F F2 ->
  exists F2' ev2, CoreAll.exec_list fo sys prog inc sup d pile2 cf2 n2 F2 f vs p sg F2' f' vs' out ev2 /\
                  tsim false ks F' F2' /\ map shape ev = map shape ev2.
Proof. exact relocate. Qed.
Print Assumptions C12e_relocate.

(* names are never lost nor duplicated; so the merge after START is the file's own final state *)
Theorem C12e_names_kept : forall (fo : FloatOps) (sys : store fo) prog inc sup d pile cf n F f vs p sg F' f' vs' out ev,
  CoreAll.exec_list fo sys prog inc sup d pile cf n F f vs p sg F' f' vs' out ev ->
  (nodup_keys vs -> nodup_keys vs') /\ kext vs vs' /\ (nodup_keys F -> nodup_keys F') /\ kext F F'.
Proof. exact keys_list. Qed.
Print Assumptions C12e_names_kept.

Theorem C12e_overlay_after_run : forall (fo : FloatOps) (sys : store fo) prog inc sup d pile cf n F f vs p sg F1 f1 vs1 out ev,
  CoreAll.exec_list fo sys prog inc sup d pile cf n F f vs p sg F1 f1 vs1 out ev -> nodup_keys vs -> nodup_keys F ->
  overlay fo vs1 vs = vs1 /\ overlay_defs F1 F = F1.
Proof. exact overlay_after_run. Qed.
Print Assumptions C12e_overlay_after_run.

(* FROM THE IMPORT RULE: every derivation of `START f` gives a derivation of the statements of f at
   the place of the START, one stack lower: same output, same final store, same functions up to
   their home (those f defines are now defined in cf), same events up to locations -- except that
   the inlined list starts with NO flag and ends with the file's flag f1 (the import keeps fl), and
   ends with the file's signal sg1 without the stray warning (the import ends Normal with it). *)
Theorem C12e_start_paste : forall (fo : FloatOps) (sys : store fo) prog inc sup d pile cf n F fl vs f sg F' f' vs' out ev,
  CoreAll.exec fo sys prog inc sup d pile cf n F fl vs (UStart KStart f) sg F' f' vs' out ev ->
  nodup_keys vs -> nodup_keys F ->
  exists d' stmts sg1 f1 F2 ev2,
    d = S d' /\ lookup f prog = Some stmts /\ sg = Normal /\ f' = fl /\
    CoreAll.exec_list fo sys prog inc sup d' pile cf n F None vs stmts sg1 F2 f1 vs' out ev2 /\
    tsim false [cf] F' F2 /\ map shape ev = map shape (ev2 ++ stray sg1).
Proof. exact start_paste. Qed.
Print Assumptions C12e_start_paste.

(* the same for START / STARTCODE / STARTENV: F1, vs1, out1 are the file's own final table, store
   and output, which the inlined statements produce as they are; STARTCODE keeps of them only the
   assignments to existing variables, STARTENV drops the output *)
Theorem C12e_start_paste_any : forall (fo : FloatOps) (sys : store fo) prog inc sup d pile cf n F fl vs k f sg F' f' vs' out ev,
  CoreAll.exec fo sys prog inc sup d pile cf n F fl vs (UStart k f) sg F' f' vs' out ev ->
  nodup_keys vs -> nodup_keys F ->
  exists d' stmts sg1 f1 F1 vs1 out1 F2 ev2,
    d = S d' /\ lookup f prog = Some stmts /\ sg = Normal /\ f' = fl /\
    CoreAll.exec_list fo sys prog inc sup d' pile cf n F None vs stmts sg1 F2 f1 vs1 out1 ev2 /\
    tsim false [cf] F1 F2 /\ map shape ev = map shape (ev2 ++ stray sg1) /\
    F' = (match k with KCode => F | _ => F1 end) /\
    vs' = (match k with KCode => copy_back fo vs vs1 | _ => vs1 end) /\
    out = (match k with KEnv => [] | _ => out1 end).
Proof. exact start_paste_any. Qed.
Print Assumptions C12e_start_paste_any.

(* THE PASTE EQUATION: the file runs to Normal and leaves no flag; then `START f :: rest` and
   `stmts(f) ++ rest` have derivations with the same signal, flag, store, output; tables up to the
   home of f's functions; events up to locations *)
Theorem C12e_paste_in_context : forall (fo : FloatOps) (sys : store fo) prog inc sup d pile cf n F vs f stmts F1 vs1 o1 e1 rest sg F' f' vs' o2 e2,
  lookup f prog = Some stmts -> ~ In f (live_files pile cf) -> nodup_keys vs -> nodup_keys F ->
  CoreAll.exec_list fo sys prog inc sup d (pile ++ [mkSF cf (start_head KStart f) n true]) f 1 F None vs stmts Normal F1 None vs1 o1 e1 ->
  CoreAll.exec_list fo sys prog inc sup (S d) pile cf (n + 1) F1 None vs1 rest sg F' f' vs' o2 e2 ->
  CoreAll.exec_list fo sys prog inc sup (S d) pile cf n F None vs (UStart KStart f :: rest) sg F' f' vs' (o1 ++ o2) (e1 ++ e2) /\
  exists F2 ev2,
    CoreAll.exec_list fo sys prog inc sup (S d) pile cf n F None vs (stmts ++ rest) sg F2 f' vs' (o1 ++ o2) ev2 /\
    tsim false [cf] F' F2 /\ map shape (e1 ++ e2) = map shape ev2.
Proof. exact paste_in_context. Qed.
Print Assumptions C12e_paste_in_context.

(* ... after any statements pre that end Normal and leave no flag *)
Theorem C12e_paste_after_prefix : forall (fo : FloatOps) (sys : store fo) prog inc sup d pile cf n0 F0 f0 vs0 pre o0 e0 F vs f stmts F1 vs1 o1 e1 rest sg F' f' vs' o2 e2,
  lookup f prog = Some stmts -> ~ In f (live_files pile cf) -> nodup_keys vs0 -> nodup_keys F0 ->
  CoreAll.exec_list fo sys prog inc sup (S d) pile cf n0 F0 f0 vs0 pre Normal F None vs o0 e0 ->
  CoreAll.exec_list fo sys prog inc sup d (pile ++ [mkSF cf (start_head KStart f) (n0 + sum_sizes usize pre) true]) f 1 F None vs stmts Normal F1 None vs1 o1 e1 ->
  CoreAll.exec_list fo sys prog inc sup (S d) pile cf (n0 + sum_sizes usize pre + 1) F1 None vs1 rest sg F' f' vs' o2 e2 ->
  CoreAll.exec_list fo sys prog inc sup (S d) pile cf n0 F0 f0 vs0 (pre ++ UStart KStart f :: rest) sg F' f' vs' (o0 ++ o1 ++ o2) (e0 ++ e1 ++ e2) /\
  exists F2 ev2,
    CoreAll.exec_list fo sys prog inc sup (S d) pile cf n0 F0 f0 vs0 (pre ++ stmts ++ rest) sg F2 f' vs' (o0 ++ o1 ++ o2) (e0 ++ ev2) /\
    tsim false [cf] F' F2 /\ map shape (e1 ++ e2) = map shape ev2.
Proof. exact paste_after_prefix. Qed.
Print Assumptions C12e_paste_after_prefix.

(* non-vacuity: the two-file program with lib pasted into main (VAR x 5 / FUNC greet ... / PRINT
   loaded / RUN greet / FOO bar / REM done / $STRING x) has, by the theorem, a derivation with the
   output, store and flag of the original, and the same events up to locations *)
Theorem C12e_two_files_pasted : forall fo inc sup, exists F2 ev2,
  CoreAll.exec_list fo (initial_sys fo) two_files inc sup 1 [] n_main 1 [] None [] main_pasted Normal F2 None
                    [(CoreAllExample.S_ "x", VInt 5)] (ex_out inc) ev2 /\
  tsim false [n_main] [(CoreAllExample.S_ "greet", greet_def)] F2 /\ map shape (ex_events sup) = map shape ev2.
Proof. exact two_files_pasted. Qed.
Print Assumptions C12e_two_files_pasted.

(* more stacks never hurt (used to put the inlined statements, one stack lower, next to rest) *)
Theorem C12e_depth_mono : forall (fo : FloatOps) (sys : store fo) prog inc sup d pile cf n F f vs p sg F' f' vs' out ev,
  CoreAll.exec_list fo sys prog inc sup d pile cf n F f vs p sg F' f' vs' out ev ->
  CoreAll.exec_list fo sys prog inc sup (S d) pile cf n F f vs p sg F' f' vs' out ev.
Proof. exact depth_mono_list. Qed.
Print Assumptions C12e_depth_mono.

(* ------------------------------------------------------------------ where inlining is NOT the import *)
(* the rule-level facts *)
Theorem C12e_start_keeps_flag_and_ends_normal : forall (fo : FloatOps) (sys : store fo) prog inc sup d pile cf n F fl vs k f sg F' f' vs' out ev,
  CoreAll.exec fo sys prog inc sup d pile cf n F fl vs (UStart k f) sg F' f' vs' out ev -> sg = Normal /\ f' = fl.
Proof. exact start_keeps_flag_and_normal. Qed.
Print Assumptions C12e_start_keeps_flag_and_ends_normal.

Theorem C12e_if_sets_flag : forall (fo : FloatOps) (sys : store fo) prog inc sup d pile cf n F fl vs arms els sg F' f' vs' out ev,
  CoreAll.exec fo sys prog inc sup d pile cf n F fl vs (UIf arms els) sg F' f' vs' out ev -> exists taken, f' = Some taken.
Proof. exact if_sets_flag. Qed.
Print Assumptions C12e_if_sets_flag.

(* 1. line numbers and files inside events: imported, the print is on line 1 of lib; inlined, on line 2 of main *)
Theorem C12e_differs_locations : forall fo inc sup,
  CoreAll.exec_list fo (initial_sys fo) prog1 inc sup 1 [] n_main 1 [] None [] [UEmit w_STRING (CoreAllExample.S_ "x"); UStart KStart n_lib]
     Normal [] None [] [LCode (CoreAllExample.S_ "STRING x")] [EvPrint (CoreAllExample.S_ "hello") 1 n_lib] /\
  CoreAll.exec_list fo (initial_sys fo) prog1 inc sup 1 [] n_main 1 [] None [] ([UEmit w_STRING (CoreAllExample.S_ "x")] ++ lib1)
     Normal [] None [] [LCode (CoreAllExample.S_ "STRING x")] [EvPrint (CoreAllExample.S_ "hello") 2 n_main] /\
  map shape [EvPrint (CoreAllExample.S_ "hello") 1 n_lib] = map shape [EvPrint (CoreAllExample.S_ "hello") 2 n_main].
Proof. exact paste_moves_prints. Qed.
Print Assumptions C12e_differs_locations.

(* 2. imported, greet is a function of lib; inlined, of main *)
Theorem C12e_differs_function_home : forall fo inc sup,
  CoreAll.exec_list fo (initial_sys fo) prog2 inc sup 1 [] n_main 1 [] None [] [UStart KStart n_lib]
     Normal [(CoreAllExample.S_ "greet", mkDef [] hi_body n_lib 1)] None [] [] [] /\
  CoreAll.exec_list fo (initial_sys fo) prog2 inc sup 1 [] n_main 1 [] None [] lib2
     Normal [(CoreAllExample.S_ "greet", mkDef [] hi_body n_main 1)] None [] [] [].
Proof. exact paste_moves_functions. Qed.
Print Assumptions C12e_differs_function_home.

(* 3. the flag LEFT: imported, the importer's flag is untouched; inlined, the file's IF sets it *)
Theorem C12e_differs_flag_left : forall fo inc sup,
  CoreAll.exec_list fo (initial_sys fo) prog3 inc sup 2 [] n_main 1 [] None [] [UStart KStart n_lib]
     Normal [] None [] [LCode (CoreAllExample.S_ "STRING a")] [] /\
  CoreAll.exec_list fo (initial_sys fo) prog3 inc sup 2 [] n_main 1 [] None [] lib3
     Normal [] (Some true) [] [LCode (CoreAllExample.S_ "STRING a")] [].
Proof. exact paste_changes_flag. Qed.
Print Assumptions C12e_differs_flag_left.

(* 4. RETURN: imported, it ends the file and main goes on; inlined, it ends main *)
Theorem C12e_differs_return : forall fo inc sup,
  CoreAll.exec_list fo (initial_sys fo) prog4 inc sup 1 [] n_main 1 [] None [] [UStart KStart n_lib; UEmit w_STRING (CoreAllExample.S_ "c")]
     Normal [] None [] [LCode (CoreAllExample.S_ "STRING c")] [] /\
  CoreAll.exec_list fo (initial_sys fo) prog4 inc sup 1 [] n_main 1 [] None [] (lib4 ++ [UEmit w_STRING (CoreAllExample.S_ "c")])
     Returned [] None [] [] [].
Proof. exact paste_return. Qed.
Print Assumptions C12e_differs_return.

(* 5. a stray BREAKLOOP: imported, one warning and main goes on; inlined, main ends Broke *)
Theorem C12e_differs_stray_break : forall fo inc sup,
  CoreAll.exec_list fo (initial_sys fo) prog5 inc sup 1 [] n_main 1 [] None [] [UStart KStart n_lib; UEmit w_STRING (CoreAllExample.S_ "c")]
     Normal [] None [] [LCode (CoreAllExample.S_ "STRING c")] [EvWarn (WStray true)] /\
  CoreAll.exec_list fo (initial_sys fo) prog5 inc sup 1 [] n_main 1 [] None [] (lib5 ++ [UEmit w_STRING (CoreAllExample.S_ "c")])
     Broke [] None [] [] [].
Proof. exact paste_stray_break. Qed.
Print Assumptions C12e_differs_stray_break.

(* 6. the flag SEEN: after an IF the importer has a flag; inlined, `$STRING $IF_SUCCESS` reads it;
      imported, the file starts with no flag and the import has NO derivation *)
Theorem C12e_differs_flag_seen : forall fo inc sup,
  CoreAll.exec_list fo (initial_sys fo) prog6 inc sup 1 [] n_main 1 [] (Some true) [] lib6
     Normal [] (Some true) [] [LCode (CoreAllExample.S_ "STRING True")] [] /\
  (forall d sg F' f' vs' out ev,
     ~ CoreAll.exec fo (initial_sys fo) prog6 inc sup d [] n_main 1 [] (Some true) [] (UStart KStart n_lib) sg F' f' vs' out ev).
Proof. exact paste_flag_seen. Qed.
Print Assumptions C12e_differs_flag_seen.
