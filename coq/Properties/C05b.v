(* C05b -- IF / ELIF / ELSE chains through Stack.run.  Statements only; proofs in Proofs/ChainProofs.v
   (and computed witnesses in Proofs/ChainLoopExamples.v).

   Vocabulary (Proofs/ChainProofs.v, Proofs/ScopeProofs.v):
     arm                     one arm of a chain: kind (AIf / AElif / AElse), text of its line, line number,
                             the block that follows
     arm_ok a                the line splits into KEYWORD [argument]; the first word is the arm's keyword
                             in ANY casing (upper w = IF / ELIF / ELSE, no leading $); the block is not
                             empty; IF / ELIF have an argument, ELSE has none
     chain_ok arms           an AIf arm first, then AElif / AElse arms (in any order), all arm_ok
     chain_items arms        the items  Ln line_1 n_1 :: Blk body_1 :: Ln line_2 n_2 :: Blk body_2 :: ...
     cond_arm k c n body     the arm written  KW c  with the upper-case keyword;  else_arm n body:  ELSE
     clear_line2 s           s with line_2 := None (what Stack.run does before every line)
     with_flag b s           s with $IF_SUCCESS := b in the temp table, nothing else changed
     ensure_flag s           s if the flag exists, otherwise with_flag false s
     evals s a b             the condition of a evaluates without error in s, to a value of truthiness b
                             (the evaluated text is the argument after strip_arg; ELSE: b = true)
     evaluates s a           exists b, evals s a b
     all_false s0 earlier    the IF's condition is false in ensure_flag s0, every other condition of
                             [earlier] is false in with_flag false s0
     cond_state s0 earlier   the state in which the NEXT condition is evaluated: ensure_flag s0 for the
                             IF itself, with_flag false s0 after it
     after_branch rest acc cr  append cr's output to acc; on SNormal go on with exec_cmds rest, on any other
                             signal end this stack with that signal
     take_arm a rest acc     run_child on the block of a (current line = a's line), then after_branch

   The conditions are evaluated when their line is reached and $IF_SUCCESS is itself a readable
   variable, so the hypotheses name the states: the IF's condition is evaluated in ensure_flag s0;
   while no arm has been taken the state is with_flag false s0 and does not change; after the
   taken arm every later ELIF condition is STILL evaluated (in the state the body left) and must
   evaluate -- see C05b_later_elif_condition_is_evaluated: this hypothesis cannot be dropped. *)
From Coq Require Import String NArith ZArith List Bool.
From DS Require Import Base PyStr Values Expr TabParse Tables Constants Interp ScopeProofs ChainProofs ChainLoopExamples.
Import ListNotations.

(* dispatch: the three keywords, in any casing, followed by a non-empty block, go to the class "If"
   of the generated palette (computed on the generated table for the upper-case spellings) *)
Theorem C05b_if_family_dispatch :
  exists bc, is_if_class bc /\
    forall k w body, upper w = kw_of k -> starts_dollar w = false -> body <> [] ->
      find_command palette w (Some body) = Some (s_If, Block bc).
Proof. exact if_family_dispatch. Qed.
Print Assumptions C05b_if_family_dispatch.

(* (b) the general n-arm statement: arm number (length earlier) is the first whose condition is true *)
Theorem C05b_chain_first_true :
  forall fo child cx (arms earlier : list arm) (a : arm) (later : list arm) rest acc s,
  chain_ok arms -> arms = earlier ++ a :: later ->
  let s0 := clear_line2 fo s in
  all_false fo s0 earlier ->
  evals fo (cond_state fo s0 earlier) a true ->
  (forall s' cr,
     run_child fo child cx (a_line a, a_num a) (a_body a) (c_file cx) false (fun e => Ok e) (with_flag fo true s0)
       = (s', IOk _ cr) ->
     cr_sig cr = SNormal -> Forall (evaluates fo s') later) ->
  exec_cmds fo child cx (chain_items arms ++ rest) acc s =
  bindM fo (run_child fo child cx (a_line a, a_num a) (a_body a) (c_file cx) false (fun e => Ok e))
        (fun cr => match cr_sig cr with
                   | SNormal => exec_cmds fo child cx rest (acc ++ cr_data cr)
                   | sg => ret fo (mkCret (acc ++ cr_data cr) sg)
                   end)
        (with_flag fo true s0).
Proof. exact chain_first_true. Qed.
Print Assumptions C05b_chain_first_true.

(* no arm is true: no body runs; the commands after the chain start with the flag false *)
Theorem C05b_chain_none_true :
  forall fo child cx (arms : list arm) rest acc s,
  chain_ok arms ->
  let s0 := clear_line2 fo s in
  all_false fo s0 arms ->
  exec_cmds fo child cx (chain_items arms ++ rest) acc s =
  exec_cmds fo child cx rest acc (with_flag fo false s0).
Proof. exact chain_none_true. Qed.
Print Assumptions C05b_chain_none_true.

(* the arms written with upper-case keywords are well formed, and their condition is the text
   without surrounding blanks *)
Theorem C05b_cond_arm_ok : forall k c n body,
  k <> AElse -> is_blank c = false -> body <> [] -> arm_ok (cond_arm k c n body).
Proof. exact cond_arm_ok. Qed.
Print Assumptions C05b_cond_arm_ok.

Theorem C05b_else_arm_ok : forall n body, body <> [] -> arm_ok (else_arm n body).
Proof. exact else_arm_ok. Qed.
Print Assumptions C05b_else_arm_ok.

Theorem C05b_evals_cond_arm : forall fo s k c n body b, is_blank c = false ->
  (evals fo s (cond_arm k c n body) b <->
   exists v, tokenize fo (all_vars fo (s_env fo s)) (strip c) = Ok v /\ truthy fo v = b).
Proof. exact evals_cond_arm. Qed.
Print Assumptions C05b_evals_cond_arm.

Theorem C05b_evals_else_arm : forall fo s n body b, evals fo s (else_arm n body) b <-> b = true.
Proof. exact evals_else_arm. Qed.
Print Assumptions C05b_evals_else_arm.

(* (a) one arm: IF c *)
Theorem C05b_if_alone :
  forall fo child cx c n1 b1 rest acc s v,
  is_blank c = false -> b1 <> [] ->
  let s0 := clear_line2 fo s in
  tokenize fo (all_vars fo (s_env fo (ensure_flag fo s0))) (strip c) = Ok v ->
  exec_cmds fo child cx ([Ln (s_IF ++ 32%N :: c) n1; Blk b1] ++ rest) acc s =
  if truthy fo v
  then bindM fo (run_child fo child cx (s_IF ++ 32%N :: c, n1) b1 (c_file cx) false (fun e => Ok e))
             (after_branch fo child cx rest acc) (with_flag fo true s0)
  else exec_cmds fo child cx rest acc (with_flag fo false s0).
Proof. exact if_alone_chain. Qed.
Print Assumptions C05b_if_alone.

(* (a) two arms: IF c / ELSE *)
Theorem C05b_if_else :
  forall fo child cx c n1 b1 n2 b2 rest acc s v,
  is_blank c = false -> b1 <> [] -> b2 <> [] ->
  let s0 := clear_line2 fo s in
  tokenize fo (all_vars fo (s_env fo (ensure_flag fo s0))) (strip c) = Ok v ->
  exec_cmds fo child cx ([Ln (s_IF ++ 32%N :: c) n1; Blk b1; Ln s_ELSE n2; Blk b2] ++ rest) acc s =
  if truthy fo v
  then bindM fo (run_child fo child cx (s_IF ++ 32%N :: c, n1) b1 (c_file cx) false (fun e => Ok e))
             (after_branch fo child cx rest acc) (with_flag fo true s0)
  else bindM fo (run_child fo child cx (s_ELSE, n2) b2 (c_file cx) false (fun e => Ok e))
             (after_branch fo child cx rest acc) (with_flag fo true s0).
Proof. exact if_else_chain. Qed.
Print Assumptions C05b_if_else.

(* (a) three arms: IF c1 / ELIF c2 / ELSE *)
Theorem C05b_if_elif_else :
  forall fo child cx c1 n1 b1 c2 n2 b2 n3 b3 rest acc s v1 v2,
  is_blank c1 = false -> is_blank c2 = false -> b1 <> [] -> b2 <> [] -> b3 <> [] ->
  let s0 := clear_line2 fo s in
  tokenize fo (all_vars fo (s_env fo (ensure_flag fo s0))) (strip c1) = Ok v1 ->
  (truthy fo v1 = false ->
   tokenize fo (all_vars fo (s_env fo (with_flag fo false s0))) (strip c2) = Ok v2) ->
  (truthy fo v1 = true -> forall s' cr,
     run_child fo child cx (s_IF ++ 32%N :: c1, n1) b1 (c_file cx) false (fun e => Ok e) (with_flag fo true s0)
       = (s', IOk _ cr) ->
     cr_sig cr = SNormal ->
     exists v, tokenize fo (all_vars fo (s_env fo s')) (strip c2) = Ok v) ->
  exec_cmds fo child cx
    ([Ln (s_IF ++ 32%N :: c1) n1; Blk b1; Ln (s_ELIF ++ 32%N :: c2) n2; Blk b2; Ln s_ELSE n3; Blk b3] ++ rest) acc s =
  if truthy fo v1
  then bindM fo (run_child fo child cx (s_IF ++ 32%N :: c1, n1) b1 (c_file cx) false (fun e => Ok e))
             (after_branch fo child cx rest acc) (with_flag fo true s0)
  else if truthy fo v2
  then bindM fo (run_child fo child cx (s_ELIF ++ 32%N :: c2, n2) b2 (c_file cx) false (fun e => Ok e))
             (after_branch fo child cx rest acc) (with_flag fo true s0)
  else bindM fo (run_child fo child cx (s_ELSE, n3) b3 (c_file cx) false (fun e => Ok e))
             (after_branch fo child cx rest acc) (with_flag fo true s0).
Proof. exact if_elif_else_chain. Qed.
Print Assumptions C05b_if_elif_else.

(* the pieces of the induction, usable on their own *)
(* once an arm was taken (flag true) every later ELIF / ELSE is skipped and the state is unchanged *)
Theorem C05b_skip_later :
  forall fo child cx bc, is_if_class bc ->
  (forall k w body, upper w = kw_of k -> starts_dollar w = false -> body <> [] ->
      find_command palette w (Some body) = Some (s_If, Block bc)) ->
  forall later rest acc s,
  Forall arm_ok later -> Forall non_if later ->
  flag_of fo s = true -> s_line2 fo s = None ->
  Forall (evaluates fo s) later ->
  exec_cmds fo child cx (chain_items later ++ rest) acc s = exec_cmds fo child cx rest acc s.
Proof. exact skip_later. Qed.
Print Assumptions C05b_skip_later.

(* ---- computed witnesses (text -> tab parser -> Compiler.compile, default options) *)
Open Scope string_scope.

Theorem C05b_chain_elif_taken : forall fo,
  texts fo (run_text fo (prog ["IF FALSE"; T "STRING a"; "ELIF TRUE"; T "STRING b";
                               "ELIF TRUE"; T "STRING b2"; "ELSE"; T "STRING c"; "STRING d"]))
  = Some [lit "STRING b"; lit "STRING d"].
Proof. exact chain_elif_taken. Qed.
Print Assumptions C05b_chain_elif_taken.

Theorem C05b_chain_else_taken : forall fo,
  texts fo (run_text fo (prog ["IF FALSE"; T "STRING a"; "ELIF FALSE"; T "STRING b";
                               "ELSE"; T "STRING c"; "STRING d"]))
  = Some [lit "STRING c"; lit "STRING d"].
Proof. exact chain_else_taken. Qed.
Print Assumptions C05b_chain_else_taken.

Theorem C05b_chain_none_taken : forall fo,
  texts fo (run_text fo (prog ["IF FALSE"; T "STRING a"; "ELIF FALSE"; T "STRING b"; "STRING d"]))
  = Some [lit "STRING d"].
Proof. exact chain_none_taken. Qed.
Print Assumptions C05b_chain_none_taken.

(* the IF is taken, and the program still fails on the ELIF line: its condition is evaluated *)
Theorem C05b_later_elif_condition_is_evaluated : forall fo,
  snd (run_text fo (prog ["IF TRUE"; T "STRING a"; "ELIF $nope"; T "STRING b"]))
  = IErr _ EExpectedToken (Some [mkFrame None (lit "ELIF $nope", 3%Z) None]).
Proof. exact later_elif_condition_is_evaluated. Qed.
Print Assumptions C05b_later_elif_condition_is_evaluated.

(* the ELIF condition is true once the IF body has run, and its block is still not run *)
Theorem C05b_later_elif_true_but_skipped : forall fo,
  texts fo (run_text fo (prog ["VAR x 0"; "IF x==0"; T "VAR x 1"; "ELIF x==1"; T "STRING b"; "STRING d"]))
  = Some [lit "STRING d"].
Proof. exact later_elif_true_but_skipped. Qed.
Print Assumptions C05b_later_elif_true_but_skipped.
